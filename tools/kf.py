#!/venv/bin/python
"""Maintains known_findings.json (never called by a check).
usage: tools/kf.py fixed <ID> <props,comma> <commit> <replay-file-or-> <what...>
       tools/kf.py open  <ID> <props,comma> <clause-glob> <kind-glob> <predicate-or-> <witness.json-or-> <what...>
"""
import json, sys
P = '/verif/known_findings.json'
d = json.load(open(P))
mode = sys.argv[1]
if mode == 'fixed':
    _, _, fid, props, commit, replay = sys.argv[:6]
    what = ' '.join(sys.argv[6:])
    props = props.split(',')
    e = dict(id=fid, properties=props, status='fixed', commit=commit,
             replay=None if replay == '-' else replay, what=what,
             line='; '.join('fixed: property=%s %s %s' % (p, commit, what) for p in props))
else:
    _, _, fid, props, clause, kind, pred, wit = sys.argv[:8]
    what = ' '.join(sys.argv[8:])
    e = dict(id=fid, properties=props.split(','), status='open', clause=clause, kind=kind,
             predicate=None if pred == '-' else pred,
             witness=None if wit == '-' else json.load(open(wit)).get('spec'), what=what)
d = [x for x in d if x['id'] != fid] + [e]
json.dump(d, open(P, 'w'), indent=1)
print(len(d), 'entries')
