#!/venv/bin/python
"""Runs the repository's pinned test command and compares with BASELINE.json stable_pass."""
import json, subprocess, sys, tempfile, os
import xml.etree.ElementTree as ET
b = json.load(open('/root/.vp/BASELINE.json'))
fd, path = tempfile.mkstemp(suffix='.xml'); os.close(fd)
cmd = b['cmd'].replace('<file>', path)
env = dict(os.environ); env.pop('CHI_VERIF', None)
r = subprocess.run(cmd, shell=True, capture_output=True, text=True, env=env)
passed = set()
for tc in ET.parse(path).getroot().iter('testcase'):
    if not any(ch.tag in ('failure', 'error', 'skipped') for ch in tc):
        passed.add('%s::%s' % (tc.get('classname'), tc.get('name')))
os.remove(path)
missing = sorted(set(b['stable_pass']) - passed)
print('stable_pass %d, passed now %d, missing %d' % (len(b['stable_pass']), len(passed), len(missing)))
for m in missing: print('  MISSING', m)
sys.exit(1 if missing else 0)
