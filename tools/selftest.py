#!/venv/bin/python
"""Self-test of the comparison primitives (a wrong oracle primitive silently weakens every check)."""
import sys
sys.path[:0] = ['/repo', '/verif']
import numpy as np
from vf.core import Case, ClauseFail
c = Case({})
def fails(*a, **k):
    try:
        c.close(*a, **k); return False
    except ClauseFail:
        return True
inf, nan = np.inf, np.nan
assert not fails(1.0, 1.0 + 1e-12)
assert fails(1.0, 1.1)
assert fails(-inf, 0.0) and fails(inf, 0.0) and fails(nan, 0.0)
assert fails(0.0, -inf) and fails(0.0, inf) and fails(0.0, nan)
assert not fails(-inf, -inf) and fails(-inf, inf) and fails(nan, -inf) and fails(-inf, nan)
assert not fails([1, -inf], [1, -inf]) and fails([1, -inf], [1, 2])
assert fails([1, 2], [1, 2, 3])
assert fails(1e300, 1.0) and fails(1.0, 1e300)
assert not fails(1e-12, 0.0, atol=1e-9) and fails(1e-6, 0.0, rtol=0, atol=1e-9)
assert not fails([], [])
print('selftest ok')
