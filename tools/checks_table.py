"""Per-property manifest texts. Add an entry when a check is built (tools/manifest.py regenerates MANIFEST.json)."""
PBT = 'property-based testing (Hypothesis, spec-based generation, collect-then-shrink)'
BASE_NOTE = 'Trusts numpy/scipy, Hypothesis and the reference model vf/ref.py (written from the docstrings). '
CHECKS = {}


def add(pid, technique, text, note=''):
    CHECKS[pid] = dict(technique=PBT + ': ' + technique, text=text + ' Sampling-based exploration: absence of violations is shown only on the explored cases.',
                       note=BASE_NOTE + note, design='DESIGN.md section 3 (%s)' % pid)


add('C04', 'differential against closed-form reference densities, quad normalisation, complex-step derivative oracle',
    'Generated error-model cases compared with an independent reference written from the docstrings; normalisation by numerical '
    'integration; gradients against exact complex-step derivatives of the reference.',
    'The reference is cross-checked by the normalisation clause.')
add('C05', 'differential against reference densities over a grammar of population-model compositions, metamorphic layout/return-form relations, complex-step derivatives',
    'Generated population-model compositions (elementary, covariate, composed, nested, reduced) evaluated directly; value, individual-parameter '
    'transform and all sensitivity return forms compared with an independent reference and its exact derivatives; layouts and return forms compared with each other.',
    "Point-mass dimensions: observations are taken from chi's own transform (input construction, not oracle).")
