#!/bin/sh
# Idempotent, offline: make sure hypothesis is importable from the repository's interpreter.
set -e
if ! /venv/bin/python -c "import hypothesis" 2>/dev/null; then
  /venv/bin/pip install --no-index --find-links /opt/veriftools/wheels hypothesis
fi
/venv/bin/python -c "import hypothesis, numpy, scipy; print('setup ok: hypothesis', hypothesis.__version__)"
